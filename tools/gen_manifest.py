#!/usr/bin/env python3
"""Generate /verif/MANIFEST.json from the table below (kept here so the texts are reviewed in one place)."""
import json, subprocess, os

VERIF = os.path.dirname(os.path.dirname(os.path.abspath(__file__)))

E1 = "e1"
CHECKS = {
 "C01": dict(engine="E1 typed-read explorer + linked chains + scene graphs + sample files", cat="exploration", ref="DESIGN.md 3.3, 4 C01",
   technique="stateless deviation-bounded DFS over typed-read answers (bounded exhaustive exploration of the implementation)",
   text="Every decision path of every block reader (304 types x 28 version configurations) within a deviation bound from the all-defaults answer is executed on the real "
        "reader/writer; block level: write(read(B1)) == B1 and the reader consumes exactly what the writer wrote; file level (through NifFile::Load/Save with PrepareData/"
        "FinalizeData): the raw output reloads, the reader stops at the footer, re-saves byte-identically, and the default save converges within two rounds. Exhaustive within the bound, "
        "which is what a per-type/per-version universal claim needs and what 26 golden files cannot give.",
   note="Values outside the per-kind alphabets and more than 1 (quick) / 2 (thorough) simultaneous deviations are not explored; branching only at the first occurrence of a call site; "
        "inputs on which the reader itself faults are counted as not accepted; file level covers deviation 0 (quick) / <= 1 (thorough); in the linked chains one member at a time "
        "varies within deviation 1 (quick) / 2 (thorough)."),
 "C02": dict(engine="E1 typed-read explorer + linked chains + scene graphs + sample files", cat="exploration", ref="DESIGN.md 4 C02",
   technique="exhaustive enumeration of save/query histories (<= 3 operations) over the E1 corpus, reference function on histories",
   text="All histories over {raw save, default save, read-only query battery} up to length 3, and over all four save option sets (also optimize-only, sort-only) up to length 2 "
        "(8 representative histories in quick), on every sample file, scene graph, linked chain and synthesised single-block file, "
        "compared with twin objects after canonical string-table renumbering, plus three consecutive writes of every synthesised block; the logical snapshot must survive every save.",
   note="GetShapePartitions is excluded from the query battery because it is not read-only; across the first default save only index-free, bounds-free, reachable content is compared "
        "(pruning and bounds are that option's documented effect)."),
 "C03": dict(engine="subset enumeration + independent codec", cat="exploration", ref="DESIGN.md 4 C03",
   technique="exhaustive subset enumeration of relabelled block types, output parsed by an independent header codec",
   text="For every corpus file with a size table every non-empty subset of its block type names (all 2^T-1 up to T=10) is relabelled unknown by an independent header codec; after Load+Save "
        "(raw and default, of the loaded model and of a copy of it) the independent parser checks count, order, type names, sizes, payload bytes of unknown blocks and that every input "
        "string index still denotes the same string; every corpus entry also runs with a string table that holds one text twice, and with an explicit SetShapeOrder / "
        "PrettySortBlocks / Optimize / DeleteUnreferencedNodes between load and save (nothing may move or go while unknown blocks are present).",
   note="Files without block sizes cannot carry unknown blocks (Load rejects them) and are outside the property; quick uses singletons for files with more than 8 types."),
 "C04": dict(engine="graph grammar + block permutation codec", cat="exploration", ref="DESIGN.md 4 C04",
   technique="exhaustive enumeration of small scene graphs x block orders x sort operations against an identity-graph permutation model",
   text="Scene graphs from a construction grammar (5 versions x node trees x shape placements x 8 attachment kinds) and the sample files, each presented in every block order (all n! for small n) "
        "produced by an independent codec; PrettySortBlocks, Optimize, Save(default) and SetShapeOrder for every name sequence are checked against object identity before/after, "
        "applied twice, and the default save is compared field by field with a raw save of a twin under the induced renumbering.",
   note="All n! orders only up to 5 (quick) / 6 (thorough) blocks, a fixed family of orders beyond; 'root' is what NifFile::GetRootNode defines."),
 "C05": dict(engine="E1 typed-read explorer", cat="exploration", ref="DESIGN.md 4 C05",
   technique="stateless deviation-bounded DFS over typed-read answers with tagged references",
   text="Same decision tree as C01; every block reference and string index the reader consumes carries a unique tag that must show up in GetChildRefs/GetPtrs/GetStringRefs, and every "
        "NiRef/NiStringRef object passing through Sync while writing must be enumerated. Carried-over instances: every type read under version A and again under version B "
        "(all 756 ordered pairs of the 28 version configurations), written under both; the same write-side membership.",
   note="Inline strings of pre-20.1.0.3 files are not string-table references; references serialised other than through NiBlockRef/NiStringRef would be invisible (none found by grep)."),
 "C06": dict(engine="E2 explicit-state search", cat="model_checking", ref="DESIGN.md 3.6, 4 C06",
   technique="explicit-state breadth-first search over operation histories on the real NifFile/NiHeader with a reference model and canonical-state deduplication",
   text="Breadth-first search over all histories of add/delete/replace/reorder (every permutation)/delete-by-type/prune/sort with every argument over the full index range, on graphs of "
        "<= 4 (quick) / 5 (thorough) blocks to depth 4 / 5; every transition runs on the implementation and is compared with a reference model of an indexed object graph (logical ids, "
        "types, reference targets, header tables, per-block size entries stamped distinct before each checked transition), every reached state is saved and reloaded. A typed phase puts every one of the 304 block types (read from an E1 tape, references "
        "alternating between two targets) into a 4-block graph, applies eight edits (two deletions, root deletion, swap, reverse, sort, a 3-cycle once and twice) and requires the references the block serialises (write hook) to follow the induced renumbering.",
   note="Canonical state = per slot (type, sorted target slots, empty-reference count) + version; block payloads other than references do not influence the operations explored. "
        "Initial graphs: root only, a 4-block graph, and (thorough) a shape graph, in SSE and OB."),
 "C07": dict(engine="E1 corpus + edit menu + independent codec", cat="exploration", ref="DESIGN.md 4 C07",
   technique="exhaustive enumeration of written files (E1 decision paths, sample files x edit menu) parsed by an independent header codec",
   text="Every file written for the E1 corpus (deviation <= 1 / 2) and for every sample file after each edit of a menu (delete block i, add node/shape/extra data, delete vertex, rename, "
        "set texture, convert, clone, key interpolation, replace block by the same type, header free-text setters around their length limits, reuse of the object through Create), raw and "
        "default: the independent parser walks the tables to the footer, each block is re-read and its consumed size compared with the header entry, "
        "string table free of duplicates, maxStringLen exact, every string index in range.",
   note="Per-block sizes are cross-checked against the library's own readers (writer-side counter vs reader consumption); unknown blocks are outside (C03)."),
 "C08": dict(engine="two builds, differential", cat="exploration", ref="DESIGN.md 4 C08",
   technique="bounded exhaustive exploration of both builds' decision trees with a differential byte oracle",
   text="Two executables from one harness source, built from the working tree and from the vendored reference snapshot; each explores its own typed-read decision tree and writes every file, "
        "the other must give the same verdict as the writer itself: same Load result, reader stops at the footer, identical re-encoding. Sample files included.",
   note="Reference release = /verif/ref/nifly, vendored after the hook and fix commits of this engagement. A symmetric swap of two equal-width fields is invisible at byte level. "
        "Quick covers 13 of the 28 version configurations."),
 "C09": dict(engine="E2 histories on built shapes", cat="model_checking", ref="DESIGN.md 4 C09",
   technique="exhaustive enumeration of vertex-deletion histories (all subsets, depth 2) against an array/triangle reference model",
   text="Every non-empty vertex subset, followed by every subset of the remainder, on small meshes instantiated as every constructible geometry kind (69 configurations) and on every shape "
        "of the sample files; compared bit for bit with a parallel-array reference model (per-vertex attributes, NiSkinData weights, each vertex's partition rows), validity of every "
        "index table, save+reload; skinned shapes also with partitions that keep only bone indices or only weights.",
   note="V <= 5 (quick) / 6 (thorough); sample-file shapes use prefixes, suffixes, singletons and the full set."),
 "C10": dict(engine="E2 histories on skinned shapes", cat="model_checking", ref="DESIGN.md 4 C10",
   technique="exhaustive enumeration of partition operation histories (all triangle assignments) checked against cover/bone-limit/weight invariants",
   text="All histories up to depth 2 / 3 over UpdateSkinPartitions, Get/SetShapePartitions (every assignment in {-1,0,1,2}^T), SetDefaultPartition, DeletePartitions (every subset), "
        "RemoveEmptyPartitions, Save+Load on skinned meshes in OB/FO3/SK/SSE incl. 20- and 84-bone meshes that cross the bone limits; after every rebuild each partition row must carry "
        "the four largest NiSkinData weights of its vertex on the right bones and every triangle must keep its body part. SetTriangles (drop last / append one) is part of the alphabet: "
        "the partitions are then stale until an operation rebuilds or reassigns them.",
   note="At most one operation of a history ranges over the full SetShapePartitions alphabet; vertex-map facts are demanded only once a partition is prepared."),
 "C11": dict(engine="scenario enumeration", cat="exploration", ref="DESIGN.md 4 C11",
   technique="exhaustive enumeration of copy kind x edit history (<= 2) x destruction order scenarios with twin-object byte oracle under ASan",
   text="Every sample file and API-built model x {copy-construct, assign over empty, assign over loaded} x every edit history up to length 1 / 2 (incl. DeleteBlock of every index) applied "
        "to one side x both destruction orders; the copy must save to a twin's bytes, the untouched side's bytes and snapshot must not change; ASan/UBSan catch dangling caches. Models "
        "with opaque (unknown-type) blocks are part of the corpus; an E1 rider checks clone/copy byte equality for every synthesised instance of all 304 block types.",
   note="Never saves the same object twice inside one comparison (twins); length-2 histories are bounded on models above 24 blocks."),
 "C12": dict(engine="feature product", cat="exploration", ref="DESIGN.md 4 C12",
   technique="exhaustive enumeration of a model feature product x option sets, per-shape comparison before/after conversion",
   text="Complete product of model features (skin variants, strips/segments/dynamic, colours, model-space normals, name clashes, shader variants, meshes) x 8 / 32 option sets x both "
        "directions and there-and-back, plus the LE/SE sample files; positions, triangle sets, UVs, colours, bones, weights per source, names, reload and partition invariants "
        "(incl. every rebuilt partition row against NiSkinData; an 85-bone mesh forces a bone-limit split).",
   note="headParts only on shapes eligible as head parts (documented misuse otherwise); inputs whose two weight sources disagree are checked per surviving source."),
 "C13": dict(engine="small-scope enumeration", cat="exploration", ref="DESIGN.md 4 C13",
   technique="exhaustive small-scope enumeration of meshes x versions x setter/getter pairs",
   text="All small meshes over a value lattice (exact and inexact in half precision) x all triangle subsets x UV/normal presence x six versions, every setter/getter pair on three base "
        "shapes, boundary sizes 65535/65536; read back immediately and after save+reload within the quantisation derived from the storage format; the file written after a setter call "
        "must not depend on whether the model had been saved before the call (differential history oracle).",
   note="V <= 5 / 6; sizes above that only as boundary cases; byte-quantised attributes only fed values inside their representable range."),
 "C14": dict(engine="scenario enumeration", cat="exploration", ref="DESIGN.md 4 C14",
   technique="exhaustive enumeration of (shape, destination, clone count) scenarios with masked payload compare",
   text="Every shape of every sample file and API-built model x destination {same model, fresh model, other models of the version} x 1-2 clones; source untouched (twin bytes), every "
        "reference of the clone resolves inside the destination to an equal block (masked payload compare), pointers into the cloned subtree are rebound, bones exist with the "
        "source's node class, snapshot, save+reload. API-built models add strips/LOD/segmented shapes, controller chains, bone hierarchies, flat skeletons, model-space-normal shaders.",
   note="Pointers that leave the cloned subtree only have to reach a block of the same type (root pointers: the destination's root)."),
 "C15": dict(engine="E3 fault enumeration", cat="fault_enumeration", ref="DESIGN.md 3.7, 4 C15",
   technique="exhaustive fault-placement enumeration (every reference field x corruption kinds, 1-3 simultaneous) executed under sanitizers with a watchdog",
   text="Every reference field of every corpus file (offsets from the write-side reference hook) x {empty, count, count+1, huge, own index, ancestors, every in-range index / one per type + siblings of the type pointed to}, "
        "pairs and reduced triples on files <= 8 blocks; each placement: Load, query battery, copy, default Save, reload in a sanitised worker; hangs and stack exhaustion are attributed "
        "to the API entry point.",
   note="Quick: single faults, sample files <= 40 blocks, 13 version configurations for the synthesised corpus; a faulting placement is replayed alone before it is reported."),
 "C16": dict(engine="E3 fault enumeration", cat="fault_enumeration", ref="DESIGN.md 4 C16",
   technique="exhaustive crash-point enumeration (every prefix of a file) executed under sanitizers with a watchdog",
   text="Every prefix length of every corpus file <= 16 KiB, boundary-directed cuts (every typed-read boundary of a clean load, block boundaries, header, stride) for larger ones; each prefix: "
        "Load, and if the model is valid the query battery and a default Save, under ASan+UBSan.",
   note="Quick: the six smallest sample files + 13 version configurations of the synthesised corpus."),
 "C17": dict(engine="E2 label lists", cat="model_checking", ref="DESIGN.md 4 C17",
   technique="exhaustive enumeration of segmentation shapes x label lists x follow-up operations against a stable-sort reference model",
   text="All label lists over declared ids and -1 for T <= 4 / 5 triangles x 39 segmentation shapes x permuted numberings, set/get, every single-vertex deletion, save+reload; same for "
        "partition assignment on skinned SK/SSE(/FO3) shapes (also Set -> RemoveEmptyPartitions -> Get); ranges contiguous, ordered, summing to T, triangles a permutation; FO4 shapes "
        "with 65535..70000 triangles as boundary cases.",
   note="Numberings: all permutations up to 3 / 4 ids, four fixed ones beyond; labels outside the declared ids are caller errors and not generated."),
 "C18": dict(engine="E4 small scope", cat="model_checking", ref="DESIGN.md 4 C18",
   technique="exhaustive small-scope enumeration against naive reference definitions under ASan/UBSan",
   text="Every vector up to length 5 / 6 x every ascending index list (incl. empty, full, out-of-range) x three index types for erase/insert/collapse/expand, every small triangle list x map "
        "for the remapping helpers, every strip over 4 indices up to length 5 / 6 (and pairs) for strip expansion and its three users, plus 16-bit boundary cases.",
   note="Index lists that break the documented sorted-ascending precondition are outside the property's quantifier and off by default (--precond 1 drives them for memory safety only)."),
 "C19": dict(engine="E4 token language", cat="exploration", ref="DESIGN.md 4 C19",
   technique="exhaustive enumeration of the token language up to a length x versions x terrain x slot kinds against a canonical-form predicate",
   text="Every string of <= 4 / 6 tokens over a 10-token alphabet in texture-set slots (<= 3 / 4 tokens in effect-shader and NiSourceTexture slots) x 6 versions x terrain flag, plus a "
        "long-path family up to 4 KiB; canonical-form predicate after clean-up, idempotence, and agreement between explicit clean-up and Load.",
   note="Weaker reading wherever the statement is open (whitespace = C locale, relative = no leading separator/drive); Linux semantics of is_relative_path only."),
 "C20": dict(engine="E4 lattice", cat="exploration", ref="DESIGN.md 4 C20",
   technique="exhaustive enumeration of a finite transform lattice (all ordered pairs) and point multisets against algebraic identities",
   text="A finite lattice of rotations (10 axes x 11 angles), scales and translations: every transform and every ordered pair for inverse/composition/ToMatrix, rotation-vector round trips, "
        "matrix inverses, averages/medians of identical transforms, bounding spheres of all small point multisets and of every sample shape.",
   note="The property quantifies over a continuum; the check decides it on the lattice only. Tolerances fixed in the harness (1e-4 relative, 2e-4 absolute for round trips)."),
}


def main():
    repo_commits = subprocess.check_output(["git", "-C", "/repo", "log", "--format=%H %s"]).decode().splitlines()
    hook_commits = [l.split()[0] for l in repo_commits if "NIFLY_VERIF" in l]
    checks = []
    for pid in sorted(CHECKS):
        c = CHECKS[pid]
        checks.append({
            "property_id": pid,
            "quick_cmd": "./check %s --tier quick" % pid,
            "thorough_cmd": "./check %s --tier thorough" % pid,
            "evidence_file": "/verif/evidence/%s.json" % pid,
            "replay_cmd_template": "./check %s --replay {path}" % pid,
            "engine": c["engine"],
            "level_claimed": {"category": c["cat"], "text": c["text"], "design_ref": c["ref"]},
            "level_note": c["note"],
            "technique": c["technique"],
        })
    m = {
        "version": 1,
        "setup_cmd": "sh tools/setup.sh",
        "hooks": {
            "guard": "NIFLY_VERIF",
            "enable": "./check compiles /repo/src/*.cpp itself (clang++, ASan+UBSan) with -DNIFLY_VERIF into /verif/build (object cache keyed by source hash); /repo/_build is never touched",
            "baseline_off_cmd": "cmake --build /repo/_build && ctest --test-dir /repo/_build -j8 --timeout 900",
            "source_commits": hook_commits,
            "add_only": True,
        },
        "engines": [
            {"name": "E1", "path": "harness/tape.hpp, harness/e1_main.cpp, harness/s1.hpp", "serves_properties": ["C01", "C02", "C05", "C07", "C08"],
             "kind_free_text": "stateless deviation-bounded DFS over the answers given to typed stream reads (announce hook), forked workers with crash isolation"},
            {"name": "E2", "path": "harness/c06_graph.cpp, c09_delverts.cpp, c10_partitions.cpp, c17_segments.cpp", "serves_properties": ["C06", "C09", "C10", "C17"],
             "kind_free_text": "explicit-state search over API operation histories on the real objects against C++ reference models"},
            {"name": "E3", "path": "harness/e3.hpp, c15_refs.cpp, c16_trunc.cpp", "serves_properties": ["C15", "C16"],
             "kind_free_text": "fault-placement enumeration in sanitised forked workers with watchdog, crash attribution and solo replay"},
            {"name": "E4", "path": "harness/c18_utils.cpp, c19_texpaths.cpp, c20_math.cpp, c13_geometry.cpp", "serves_properties": ["C13", "C18", "C19", "C20"],
             "kind_free_text": "small-scope exhaustive enumeration of pure helpers and API accessors"},
            {"name": "codec", "path": "harness/nifparse.hpp, harness/canon.hpp, harness/sg.hpp", "serves_properties": ["C02", "C03", "C04", "C07", "C14", "C15"],
             "kind_free_text": "independent NIF header/footer parser and emitter, block permutation, canonical string-table form"},
        ],
        "checks": checks,
        "notes": "One driver (./check) builds the library from /repo's working tree, builds the harness, runs it, merges worker output, writes evidence and prints VIOLATION / KNOWN-FINDING lines. "
                 "Known findings and repaired defects: known_findings.txt. Seeded breakages used to test the checks: seeded/.",
        "not_applicable": [],
    }
    with open(os.path.join(VERIF, "MANIFEST.json"), "w") as f:
        json.dump(m, f, indent=1)
        f.write("\n")
    print("wrote MANIFEST.json with %d checks" % len(checks))


if __name__ == "__main__":
    main()
