#!/usr/bin/env python3
"""Print the markdown table of DESIGN.md 8.7 (what the last run of each tier covered) from evidence/tiers/*.json."""
import glob, json, os

root = os.path.dirname(os.path.dirname(os.path.abspath(__file__)))
rows = {}
for f in sorted(glob.glob(os.path.join(root, "evidence", "tiers", "*.json"))):
    e = json.load(open(f))
    rows[(e["property_id"], e["tier"])] = e

def fmt(n):
    return "-" if n is None else "{:,}".format(n).replace(",", " ")

print("| property | tier | executions | distinct non-trivial | states | transitions | exhaustive | known findings seen | wall s |")
print("|---|---|---|---|---|---|---|---|---|")
for (pid, tier) in sorted(rows, key=lambda k: (k[0], 0 if k[1] == "quick" else 1)):
    e = rows[(pid, tier)]
    c = e["coverage"]
    print("| %s | %s | %s | %s | %s | %s | %s | %d | %.0f |" % (
        pid, tier, fmt(c.get("evaluations")), fmt(c.get("distinct_nontrivial")), fmt(c.get("states")), fmt(c.get("transitions")),
        "yes" if c.get("exhaustive") else "no (deadline %s s)" % fmt(int(c.get("deadline_s", 0))), len(c.get("known_findings_seen", [])), e.get("wall_s", 0)))
