#!/bin/sh
# run every check of a tier sequentially; prints one status line per property
TIER=${1:-quick}
shift
IDS=${@:-C01 C02 C03 C04 C05 C06 C07 C08 C09 C10 C11 C12 C13 C14 C15 C16 C17 C18 C19 C20}
cd /verif
for id in $IDS; do
  s=$(date +%s)
  out=$(./check $id --tier $TIER 2>&1 | grep -v "^WARNING\|DEADLYSIGNAL")
  rc=$?
  e=$(date +%s)
  echo "$out" | grep -E "^(OK|FAIL|VIOLATION|HARNESS-FAILURE|BUILD-FAILED)" | cut -c1-260
  echo "== $id $TIER wall=$((e-s))s"
done
