#!/bin/sh
# Confirm a seeded change and run checks against it.
#   tools/seed_eval.sh <worktree with _build> <seed dir (patch.diff, demo.cpp)> <property id> [more check ids...]
# 1. worktree := /repo's HEAD, apply patch, rebuild with the project's own build, run the 28 tests
# 2. demo built against the changed library must fail, against the clean library must pass
# 3. run the named checks (quick; thorough when quick does not catch it) with --repo <worktree>
# Prints a summary; never touches /repo.
WT=$1; SD=$2; PID=$3; shift 3; OTHERS="$@"
cd /verif || exit 1
say() { echo "[seed_eval] $*"; }
git -C "$WT" checkout -q -- . 2>/dev/null
git -C "$WT" checkout -q --detach "$(git -C /repo rev-parse HEAD)" || { say "cannot move worktree to HEAD"; exit 2; }
if [ ! -d "$WT/_build" ]; then (cd "$WT" && cmake -G Ninja -B _build -DCMAKE_BUILD_TYPE=Release >/dev/null) || exit 2; fi
# clean build + demo
cmake --build "$WT/_build" -j8 >/dev/null 2>&1 || { say "clean build failed"; exit 2; }
g++ -std=c++17 -O1 -w "$SD/demo.cpp" -I"$WT/include" -isystem "$WT/external" "$WT/_build/src/libnifly.a" -o "$SD/demo_clean" 2>"$SD/demo_build.log" || { say "demo does not build (clean)"; exit 2; }
(cd "$WT" && "$SD/demo_clean" >"$SD/demo_clean.out" 2>&1); RC_CLEAN=$?
# changed build
git -C "$WT" apply "$SD/patch.diff" || { say "patch does not apply to current HEAD"; exit 3; }
cmake --build "$WT/_build" -j8 >/dev/null 2>&1 || { say "build with change failed"; git -C "$WT" checkout -q -- .; exit 3; }
TESTS=$(ctest --test-dir "$WT/_build" -j8 --timeout 900 2>&1 | grep "tests passed" | head -1)
g++ -std=c++17 -O1 -w "$SD/demo.cpp" -I"$WT/include" -isystem "$WT/external" "$WT/_build/src/libnifly.a" -o "$SD/demo_changed" 2>>"$SD/demo_build.log"
(cd "$WT" && "$SD/demo_changed" >"$SD/demo_changed.out" 2>&1); RC_CHANGED=$?
say "tests: $TESTS | demo clean rc=$RC_CLEAN | demo changed rc=$RC_CHANGED"
# checks against the changed tree
for id in $PID $OTHERS; do
  out=$(./check $id --tier quick --no-evidence --repo "$WT" 2>&1 | grep -E "^(OK|FAIL|VIOLATION|HARNESS|BUILD)" | cut -c1-300)
  echo "$out" | grep -E "^(OK|FAIL|HARNESS|BUILD)" | sed "s/^/[seed_eval] quick $id: /"
  echo "$out" | grep "^VIOLATION" | head -4 | sed "s/^/[seed_eval]    /"
  if [ "$id" = "$PID" ] && echo "$out" | grep -q "^OK"; then
    out=$(./check $id --tier thorough --no-evidence --repo "$WT" 2>&1 | grep -E "^(OK|FAIL|VIOLATION|HARNESS|BUILD)" | cut -c1-300)
    echo "$out" | grep -E "^(OK|FAIL|HARNESS|BUILD)" | sed "s/^/[seed_eval] thorough $id: /"
    echo "$out" | grep "^VIOLATION" | head -4 | sed "s/^/[seed_eval]    /"
  fi
done
git -C "$WT" checkout -q -- .
rm -f "$SD/demo_clean" "$SD/demo_changed"
